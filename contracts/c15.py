"""C15 - inputs: button edges, potentiometer reads and ultrasonic ranging (firmware side; host Button step is C20)."""
import re
import time

from pyvc.contracts import Registry
from cxxvc import harvest as H

FW = "@gen/c15_fw.py"
N = H.node

PROPERTY = {
    "level": "proof",
    "expect_min_obligations": 60,
    "explanation": "The ButtonPoll fragment and the button's setup configuration that the real emitter produces are proved (cxx2py "
                   "translation) to read the pin exactly once, to call on_click iff the new sample is pressed and the previous one was "
                   "not, and to store the sample in both shadow variables - the same step contract as the host Button.is_pressed "
                   "(proved under C20), so click counts agree by induction over passes whenever the signal starts released; the setup "
                   "code takes the initial sample (no start-up click). is_pressed()/Potentiometer.read() expressions are checked to "
                   "be the cached sample / a fresh analogRead per call (finite back end on the real parser). The generated ultrasonic "
                   "helper is proved, with a ghost real-time clock, to trigger at most three times, never within 60 ms of the previous "
                   "trigger when its recorded timestamp is non-zero, and to return echo*0.0343/2, the last good reading or 400.",
    "trusted_base": ["pyvc", "cxx2py translation of clang's AVR AST", "mock Arduino.h", "z3"],
    "assumptions": [
        "A-ARDUINO: digitalRead returns the sampled level; millis() is the true clock modulo 2^32; delay(d) advances the clock by at "
        "least d; every other call takes non-negative time; pulseIn returns the echo duration or 0 on timeout",
        "less than 2^32 ms (49 days) pass between two consecutive measurements (so the modular elapsed time is the true one)",
        "the 60 ms guarantee is stated for a non-zero recorded timestamp ('once the millisecond clock is running')",
        "A-REAL for the distance arithmetic (the device's float32 constant 0.0343f is within 1e-9 relative of 0.0343)",
        "one poll per loop() pass before user code: C05's injection contract (not re-proved here)",
    ],
}


def engine_setup(eng):
    from pyvc import events
    events.install(eng)


_B = {}


def build():
    reg = Registry()
    for g, k in (("reads", "int"), ("next_in", "bool"), ("clicks", "int"), ("areads", "int"),
                 ("clock", "int"), ("t_trigger", "int"), ("n_triggers", "int"), ("t_rec", "int"), ("next_echo", "int"), ("last_echo", "int"),
                 ("spacing_ok", "bool")):
        reg.ghost(g, k)
    specs = {
        "poll": dict(decls=[N("ButtonDecl", name="b", pin="__pin", on_click="handler")], nodes=[N("ButtonPoll", name="b")],
                     opaque={"__pin": "int", "handler": "void()"}, where="loop"),
        "ultra": dict(decls=[N("UltrasonicDecl", name="u", trig="__trig", echo="__echo", model="HC-SR04")], nodes=[],
                      opaque={"__trig": "int", "__echo": "int"}, program={"ultrasonic_measurements": ["u"]}),
    }
    em = H.emit_all(specs)
    texts, info = [], {}
    for name, sp in specs.items():
        if "error" in em[name]:
            raise RuntimeError(f"emitter failed on {name}: {em[name]['error']}")
        tr = H.translate_fragment(name, em[name]["cpp"], sp["opaque"], where=sp.get("where", "setup"))
        info[name] = tr
        texts.append(tr["py"])
        texts += list(tr["functions"].values())
    key = H.register_module("c15_fw.py", texts)
    assert key == FW
    for name in specs:
        for g, k in info[name]["globals"].items():
            reg.globs[(FW, g)] = k
    for g in ("__pin", "__trig", "__echo"):
        reg.globs[(FW, g)] = "int"
    # ---- assumed Arduino contracts
    reg.unit("digitalRead", FW, extern=True, public=False, params={"pin": "int"}, returns="int",
             modifies=["ghost.reads", "ghost.next_in"],
             ensures=["reads == old(reads) + 1", "result == ite(old(next_in), 1, 0)"], note="ASSUMED: returns the sampled level")
    reg.unit("handler", FW, extern=True, public=False, modifies=["ghost.clicks"], ensures=["clicks == old(clicks) + 1"],
             note="the user's on_click function")
    reg.unit("pinMode", FW, extern=True, public=False, params={"pin": "int", "mode": "int"})
    reg.unit("millis", FW, extern=True, public=False, returns="int", modifies=["ghost.clock", "ghost.t_rec"],
             ensures=["clock >= old(clock)", "result == clock % 4294967296", "t_rec == clock"],
             note="ASSUMED: true clock modulo 2^32; time never goes back; t_rec remembers the true time of the last millis() call")
    reg.unit("delay", FW, extern=True, public=False, params={"ms": "int"}, modifies=["ghost.clock"], ensures=["clock >= old(clock) + ms"])
    reg.unit("delayMicroseconds", FW, extern=True, public=False, params={"us": "int"}, modifies=["ghost.clock"], ensures=["clock >= old(clock)"])
    reg.unit("digitalWrite", FW, extern=True, public=False, params={"pin": "int", "val": "int"},
             modifies=["ghost.clock", "ghost.t_trigger", "ghost.n_triggers", "ghost.spacing_ok"],
             ensures=["clock >= old(clock)",
                      # a rising write on the trigger pin is a trigger: record when, count it, and remember whether it respected the spacing
                      "implies(pin == __trig and val != 0, t_trigger == clock and n_triggers == old(n_triggers) + 1 and "
                      "spacing_ok == (old(spacing_ok) and (old(t_trigger) < 0 or clock >= old(t_trigger) + 60 or "
                      "__redu_ultrasonic_measure_u____redu_last_trigger_ms_u == 0)))",
                      "implies(not (pin == __trig and val != 0), t_trigger == old(t_trigger) and n_triggers == old(n_triggers) and spacing_ok == old(spacing_ok))"],
             note="ASSUMED: ghost bookkeeping of triggers on the sensor's trigger pin")
    reg.unit("pulseIn", FW, extern=True, public=False, params={"pin": "int", "state": "int", "timeout": "int"}, returns="int",
             modifies=["ghost.clock", "ghost.next_echo", "ghost.last_echo"],
             ensures=["clock >= old(clock)", "result == old(next_echo)", "result >= 0", "last_echo == result"])
    # ---- the poll fragment and the setup code
    P, V = "__redu_button_prev_b", "__redu_button_value_b"
    reg.unit(info["poll"]["pyname"], FW, params={"__pin": "int"}, public=False, requires=["0 <= __pin <= 255"],
             modifies=[f"glob.{P}", f"glob.{V}", "ghost.reads", "ghost.next_in", "ghost.clicks"],
             ensures=["reads == old(reads) + 1",
                      f"clicks == old(clicks) + ite(old(next_in) and not old({P}), 1, 0)",
                      f"{P} == old(next_in)", f"{V} == old(next_in)"],
             note="one digitalRead; on_click iff released->pressed; both shadow variables take the sample")
    reg.unit("setup_poll", FW, public=False, requires=["0 <= __pin <= 255"],
             modifies=[f"glob.{P}", f"glob.{V}", "ghost.reads", "ghost.next_in"],
             ensures=["reads == old(reads) + 1", "clicks == old(clicks)", f"{P} == old(next_in)", f"{V} == {P}"],
             note="configuration: initial sample taken in setup(), no click")
    # ---- the ultrasonic helper
    L = "__redu_ultrasonic_measure_u____redu_last_trigger_ms_u"
    D = "__redu_ultrasonic_measure_u____redu_last_distance_u"
    HAS = "__redu_ultrasonic_measure_u____redu_has_distance_u"
    reg.unit("__redu_ultrasonic_measure_u", FW, public=False, returns="real",
             requires=["0 <= __trig <= 255", "0 <= __echo <= 255", "clock >= 0", f"0 <= {L} < 4294967296",
                       # linking invariant between the recorded timestamp and the true times (holds initially: L == 0)
                       f"implies({L} != 0, {L} == t_rec % 4294967296 and t_rec >= t_trigger and clock >= t_rec and clock - t_rec < 4294967296)",
                       "t_trigger < 0 or t_trigger <= clock", "spacing_ok", "n_triggers >= 0",
                       f"implies(not {HAS}, {D} == 400)", f"{D} >= 0"],
             modifies=[f"glob.{L}", f"glob.{D}", f"glob.{HAS}", "ghost.clock", "ghost.t_trigger", "ghost.n_triggers",
                       "ghost.next_echo", "ghost.last_echo", "ghost.spacing_ok", "ghost.t_rec"],
             ensures=["n_triggers - old(n_triggers) <= 3", "n_triggers - old(n_triggers) >= 1", "spacing_ok",
                      # the linking invariant is re-established for the next call (induction over measurements)
                      f"0 <= {L} < 4294967296", f"implies({L} != 0, {L} == t_rec % 4294967296 and t_rec >= t_trigger and clock >= t_rec)",
                      "t_trigger <= clock", f"implies(not {HAS}, {D} == 400)", f"{D} >= 0",
                      # distance formula on the first non-zero echo
                      "implies(last_echo > 0, abs(result * 2 - last_echo * 0.0343) <= last_echo * 0.000000001)",
                      f"implies(last_echo == 0, result == ite(old({HAS}), old({D}), 400.0))",
                      f"implies({HAS} and not old({HAS}), result > 0 or result == 0)", f"implies(not {HAS}, result == 400)",
                      f"result == {D} or result == 400", "result >= 0"],
             note="at most 3 triggers, each >= 60 ms after the previous one (recorded timestamp non-zero); falls back to last good / 400")
    _B["info"] = {k: {"sha": v["sha"], "prims": v["prims"], "externs": v["externs"]} for k, v in info.items()}
    _B["replay"] = {v["pyname"]: (v, specs[k]["opaque"], specs[k].get("where", "setup")) for k, v in info.items()}
    return reg


def replay_model(o):
    """replay a counterexample of the poll fragment on the really emitted C++ (cxxvc/fwreplay.py); the sampled level comes from the
    model's ghost `next_in` through the mock's scripted digital input"""
    import os
    from cxxvc import fwreplay
    from pyvc import loader
    unit = o["name"].split("/")[1].split("[")[0]
    if unit not in _B.get("replay", {}):
        return None
    tr, opaque, where = _B["replay"][unit]
    model = o.get("model") or {}
    nxt = (model.get("$ghost") or {}).get("next_in")
    saved = os.environ.get("FWSIM_DIGITAL")
    os.environ["FWSIM_DIGITAL"] = "1" if nxt else "0"
    try:
        reg = build()
        mods = loader.load(sorted({f for (f, _) in reg.contracts if f != "<extern>"}))
        if nxt is not None:
            c = reg.lookup(FW, unit)
            c.requires = list(c.requires) + [f"next_in == {'True' if nxt else 'False'}"]
        return fwreplay.replay(reg, mods, FW, unit, tr, opaque, where, model, o["name"], engine_setup=engine_setup, compare_events=False)
    finally:
        if saved is None:
            os.environ.pop("FWSIM_DIGITAL", None)
        else:
            os.environ["FWSIM_DIGITAL"] = saved


def extra_obligations(mods, tier, seed):
    """expression arms (finite back end on the real parser): is_pressed() is the cached sample, pot.read() a fresh analogRead"""
    from contracts.c08 import real
    out = []
    P, E = real("Reduino.transpile.parser"), real("Reduino.transpile.emitter")
    t0 = time.time()
    src = ("from Reduino.Sensors import Button, Potentiometer\nfrom Reduino.Communication import SerialMonitor\nm = SerialMonitor(9600)\n"
           "b = Button(2)\np = Potentiometer(\"A1\")\nwhile True:\n    m.write(b.is_pressed())\n    m.write(b.is_pressed())\n"
           "    m.write(p.read())\n    m.write(p.read())\n")
    cpp = E.emit(P.parse(src))
    loop = cpp[cpp.index("void loop()"):]
    n_dr = len(re.findall(r"digitalRead\(", loop))
    n_val = len(re.findall(r"__redu_button_value_b", loop))
    n_ar = len(re.findall(r"analogRead\(A1\)", loop))
    polls = len(re.findall(r"__redu_button_next_b = ", loop))
    first_stmt_is_poll = loop.split("{", 1)[1].lstrip().startswith("bool __redu_button_next_b")
    checks = [("is_pressed-is-cached-sample", n_dr == 1 and n_val >= 3, f"loop(): {n_dr} digitalRead, {n_val} uses of the cached sample"),
              ("one-poll-per-pass-before-user-code", polls == 1 and first_stmt_is_poll, f"{polls} poll(s); first statement is the poll: {first_stmt_is_poll}"),
              ("pot-read-is-fresh-analogRead", n_ar == 2, f"{n_ar} analogRead(A1) for two read() calls")]
    # the same arms inside a helper function, a branch and a nested loop (the cached sample must be used wherever the call occurs)
    src2 = ("from Reduino.Sensors import Button, Potentiometer\nfrom Reduino.Communication import SerialMonitor\nm = SerialMonitor(9600)\n"
            "b = Button(2)\ndef held():\n    return b.is_pressed()\ndef show():\n    m.write(b.is_pressed())\nwhile True:\n    r = held()\n    show()\n"
            "    if r:\n        m.write(b.is_pressed())\n    for i in range(2):\n        m.write(b.is_pressed())\n")
    try:
        cpp2 = E.emit(P.parse(src2))
        body2 = cpp2[cpp2.index("__redu_button_value_b"):] if "__redu_button_value_b" in cpp2 else cpp2
        n_dr2 = len(re.findall(r"digitalRead\(", cpp2[cpp2.index("void loop()"):])) + sum(
            len(re.findall(r"digitalRead\(", f)) for f in re.findall(r"\n\w+ (?:held|show)\([^)]*\) \{.*?\n\}", cpp2, re.S))
        checks.append(("is_pressed-is-cached-sample-in-helpers-branches-loops", n_dr2 == 1,
                       f"helper functions + loop(): {n_dr2} digitalRead in total (exactly the poll)"))
    except Exception as ex:
        checks.append(("is_pressed-is-cached-sample-in-helpers-branches-loops", False, f"{type(ex).__name__}: {ex}"))
    # the host half of "click counts agree": the step contract of the real host Button (owned by C20) is re-proved here from the current source
    import contracts.c20 as c20
    from pyvc import prove, loader
    reg20 = c20.build()
    mods20 = loader.load(sorted({f for (f, _) in reg20.contracts if f != "<extern>"}))
    for q in ("Button.is_pressed", "Button.set_pressed", "Button.__init__"):
        c = reg20.lookup(c20.BUTTON, q)
        cd = reg20.classes.get("Button")
        for variant in prove.variant_space(c, cd, True, c.is_init):
            r = prove.prove_variant(reg20, mods20, c20.BUTTON, q, variant, 15000, prefix="C15/dep-C20/", extra_setup=getattr(c20, "engine_setup", None))
            if r.status != "ok":
                out.append({"name": f"C15/dep-C20/{q}[{r.variant}]/unit", "status": "unknown", "backend": "pyvc", "where": f"tool limit: {r.detail}", "time": r.time})
            for o in r.obligations:
                if not o["name"].endswith("/mustfail"):
                    out.append({"name": o["name"], "status": o["status"], "backend": o.get("backend") or "z3", "where": o.get("where"), "time": o.get("time", 0.0),
                                "model": o.get("model"), "reason": o.get("reason")})
    # every read()/measure_distance() call in the source is one read on the device, also when the same call is repeated in one statement
    src3 = ("from Reduino.Sensors import Potentiometer, Ultrasonic\nfrom Reduino.Communication import SerialMonitor\nm = SerialMonitor(9600)\n"
            "p = Potentiometer(\"A1\")\nu = Ultrasonic(7, 8)\nwhile True:\n    lo, hi = p.read(), p.read()\n    d1, d2 = u.measure_distance(), u.measure_distance()\n"
            "    s = p.read() + p.read()\n    m.write(lo + hi + s)\n    m.write(d1 + d2)\n")
    try:
        cpp3 = E.emit(P.parse(src3))
        loop3 = cpp3[cpp3.index("void loop()"):]
        n_ar3 = len(re.findall(r"analogRead\(A1\)", loop3))
        n_us3 = len(re.findall(r"__redu_ultrasonic_measure_u\(\)", loop3))
        checks.append(("repeated-sensor-calls-are-separate-reads", n_ar3 == 4 and n_us3 == 2, f"loop(): {n_ar3} analogRead(A1) for four read() calls, {n_us3} measurements for two measure_distance() calls"))
    except Exception as ex:
        checks.append(("repeated-sensor-calls-are-separate-reads", False, f"{type(ex).__name__}: {ex}"))
    for name, ok, where in checks:
        out.append({"name": f"C15/arms/{name}", "status": "discharged" if ok else "sat", "backend": "enum", "bounded": True, "where": where,
                    "time": round(time.time() - t0, 3), "replay": {"source": src, "loop": loop[:600]}, "replay_confirmed": not ok})
    out += declared_pin_obligations()
    out += two_sensor_obligations()
    return out


PIN_SCRIPTS = {
    "potentiometer-redeclared-on-another-pin": "pot = Potentiometer('A0')\nbase = pot.read()\npot = Potentiometer('A2')\nwhile True:\n    level = pot.read()\n    sleep(5)\n",
    "potentiometer-redeclared-in-main-loop": "pot = Potentiometer('A1')\nwhile True:\n    a = pot.read()\n    pot = Potentiometer('A3')\n    b = pot.read()\n    pot = Potentiometer('A1')\n    sleep(5)\n",
    "two-potentiometers-then-swap-names": "p = Potentiometer('A0')\nq = Potentiometer('A1')\na = p.read()\nb = q.read()\np = Potentiometer('A1')\nq = Potentiometer('A0')\nc = p.read()\nd = q.read()\n",
    "potentiometer-read-in-helper-after-redeclaration": "pot = Potentiometer('A0')\ndef sample():\n    return pot.read()\nx = sample()\npot = Potentiometer('A4')\ny = pot.read()\n",
    # (an Ultrasonic re-declared on other pins measures on the LAST declared pins everywhere on the pinned tree; the property speaks of "the
    #  declared pin" for Potentiometer.read() only, so that shape is not an obligation here)
    "sleep-argument-reads-the-sensor-once": "pot = Potentiometer('A0')\nwhile True:\n    sleep(pot.read())\n    v = pot.read()\n    sleep(pot.read() // 4 + 7)\n    sleep(5)\n",
    "sensor-read-inside-call-arguments-and-conditions": "pot = Potentiometer('A1')\ndef twice(x):\n    return x * 2\nwhile True:\n    a = twice(pot.read())\n    if pot.read() > 100:\n        a = a + 1\n    b = max(pot.read(), 3)\n    sleep(5)\n",
    "chained-comparison-reads-the-sensor-once": "pot = Potentiometer('A2')\nwhile True:\n    hit = 0\n    if 100 < pot.read() < 900:\n        hit = 1\n    ok = 0 <= pot.read() + 1 <= 1024 < 2000\n    sleep(5)\n",
    "discarded-read-statement-is-still-a-conversion": "pot = Potentiometer('A3')\npot.read()\nwhile True:\n    pot.read()\n    v = pot.read()\n    if v > 0:\n        pot.read()\n    sleep(5)\n",
    "two-digit-analogue-pins": "a = Potentiometer('A10')\nb = Potentiometer(pin='A12')\nc = Potentiometer('A15')\nd = Potentiometer('A3')\nwhile True:\n    s = a.read() + b.read() + c.read() + d.read()\n    sleep(5)\n",
    "three-potentiometers-interleaved": "p = Potentiometer('A0')\nq = Potentiometer('A1')\nr = Potentiometer('A2')\nwhile True:\n    s = p.read() + q.read() + r.read()\n    t = r.read() - p.read()\n    sleep(5)\n",
}


def _pin_one(job):
    """firmware: the pins of the analogRead()/pulseIn() calls, in order; host: the same script under CPython with recording sensor classes"""
    name, body = job
    from progs.diff import transpile
    from fwsim.run import run_sketch
    head = "from Reduino.Sensors import Potentiometer, Ultrasonic\nfrom Reduino.Utils import sleep\n"
    cpp, err = transpile(head + body)
    if cpp is None:
        return name, "rejected", err, body
    r = run_sketch(cpp, passes=2)
    if not r.get("compiled"):
        return name, "does-not-compile", r.get("errors", "")[-300:], body
    fw = [e for e in r["events"] if e.startswith(("AR:", "PI:"))]
    host = []
    APIN = {f"A{k}": 14 + k for k in range(16)}

    class Potentiometer:
        def __init__(self, pin="A0"):
            self.pin = pin

        def read(self):
            host.append(f"AR:{APIN.get(self.pin, self.pin)}")
            return 0

    class Ultrasonic:
        def __init__(self, trig, echo, *a, **k):
            self.echo = echo

        def measure_distance(self):
            host.append(f"PI:{self.echo}")
            return 0.0

    class _Stop(Exception):
        pass
    n = {"k": 0}

    def sleep(ms):
        if ms == 5:                 # `sleep(5)` closes a pass of the main loop in these scripts
            n["k"] += 1
            if n["k"] >= 2:
                raise _Stop()
    try:
        exec(compile(body, "<pins>", "exec"), {"Potentiometer": Potentiometer, "Ultrasonic": Ultrasonic, "sleep": sleep})
    except _Stop:
        pass
    if fw != host:
        k = next((i for i, (a, b) in enumerate(zip(fw, host)) if a != b), min(len(fw), len(host)))
        return name, "differs", {"read_number": k, "firmware_reads": fw[k:k + 3], "python_reads": host[k:k + 3], "counts": [len(fw), len(host)]}, body
    return name, "same", None, body


def two_sensor_obligations():
    """two ultrasonic sensors in one sketch: the fallback after three silent attempts is the last good reading OF THAT SENSOR, or 400 cm
    when that sensor never produced one (scripted echo durations, values printed over serial; expected values computed here from the
    property's formula duration * 0.0343 / 2)"""
    from progs.diff import transpile
    from fwsim.run import run_sketch
    t0 = time.time()
    head = "from Reduino.Sensors import Ultrasonic\nfrom Reduino.Communication import SerialMonitor\nfrom Reduino.Utils import sleep\n"
    body = ("mon = SerialMonitor(9600)\nfront = Ultrasonic(7, 8)\nrear = Ultrasonic(4, 5)\nwhile True:\n    f = front.measure_distance()\n    r = rear.measure_distance()\n"
            "    mon.write(f)\n    mon.write(r)\n    sleep(100)\n")
    # pass 1: front hears 1000 us, rear hears nothing (3 attempts); pass 2: front hears nothing (3), rear hears 2000 us; pass 3: both silent
    CASES = {"rear-never-heard-then-heard": ("1000,0,0,0,0,0,0,2000,0,0,0,0,0,0", [17.15, 400.0, 17.15, 34.3, 17.15, 34.3]),
             "front-silent-from-the-start": ("0,0,0,3000,0,0,0,0,0,0", [400.0, 51.45, 400.0, 51.45])}
    out = []
    for name, (pulses, want) in CASES.items():
        prob = None
        cpp, err = transpile(head + body)
        if cpp is None:
            prob = "rejected: " + str(err)
        else:
            r = run_sketch(cpp, passes=len(want) // 2, env={"FWSIM_PULSE": pulses})
            if not r.get("compiled"):
                prob = "does not compile: " + r.get("errors", "")[-200:]
            else:
                got = []
                for e in r["events"]:
                    if e.startswith("S:"):
                        try:
                            got.append(float(e[2:]))
                        except ValueError:
                            pass
                if len(got) < len(want) or any(abs(a - b) > 0.02 for a, b in zip(got, want)):
                    prob = f"echo durations {pulses} (front asks first, three attempts each): printed distances {got[:len(want)]}, the property gives {want}"
        out.append({"name": f"C15/exec/two-sensors/{name}", "status": "discharged" if not prob else "sat", "backend": "enum+fwsim", "bounded": True,
                    "where": f"two ultrasonic sensors, scripted echoes '{pulses}': each sensor falls back to ITS last good reading, or to 400 cm when it never had one",
                    "time": round(time.time() - t0, 2), "replay": {"script": head + body, "FWSIM_PULSE": pulses, "problem": prob}, "replay_confirmed": bool(prob)})
    return out


def declared_pin_obligations():
    import multiprocessing as mp
    t0 = time.time()
    with mp.Pool(6) as pool:
        res = pool.map(_pin_one, sorted(PIN_SCRIPTS.items()), chunksize=1)
    out = []
    for name, verdict, detail, body in res:
        ok = verdict in ("same", "rejected")
        out.append({"name": f"C15/exec/declared-pin/{name}", "status": "discharged" if ok else "sat", "backend": "enum+fwsim", "bounded": True,
                    "where": f"script '{name}': every read()/measure_distance() on the device reads the pin its object was declared with at that point of the program (sequence of analogRead/pulseIn pins = CPython's) [{verdict}]",
                    "time": round((time.time() - t0) / max(1, len(res)), 2), "replay": {"script": body, "detail": detail}, "replay_confirmed": not ok})
    return out


def extra_evidence():
    return {"firmware_units": _B.get("info")}
