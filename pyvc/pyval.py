"""Heterogeneous dict keys: PyKey = IntKey(int) | StrKey(str) | OtherKey(any)."""
import z3
from .sym import *  # noqa

PyKey = z3.Datatype("PyKey")
PyKey.declare("IntKey", ("ival", z3.IntSort()))
PyKey.declare("StrKey", ("sval", z3.StringSort()))
PyKey = PyKey.create()


def key_of(v):
    if v.k == INT:
        return PyKey.IntKey(v.t)
    if v.k == BOOL:
        return PyKey.IntKey(as_int_term(v))
    if v.k == STR:
        return PyKey.StrKey(v.t)
    if v.k == "pykey":
        return v.t
    if v.k == "path":
        return PyKey.StrKey(v.t)
    raise ToolLimit(f"dict key of kind {v.k}")
