"""Device differential (bounded back end): one device per script, a command with LITERAL arguments through the REAL parser
and emitter, observed on the firmware mock and on the real host class under CPython.

Observables: what the script itself prints through the device's getters after every command (serial lines), the delays
(host sleep vs firmware delay) and, for the LCD, the cell contents at every marker.  This is the end-to-end complement of
the fragment contracts (which bypass the parser's argument resolution by construction)."""
import os
import sys

HERE = os.path.dirname(os.path.abspath(__file__))
sys.path.insert(0, os.path.dirname(HERE))
from progs.diff import host_events, transpile, observable, same_line   # noqa: E402
from fwsim.run import run_sketch   # noqa: E402

IMPORTS = ("from Reduino.Actuators import Led, RGBLed, Servo, DCMotor, Buzzer\nfrom Reduino.Displays import LCD\n"
           "from Reduino.Communication import SerialMonitor\nfrom Reduino.Utils import sleep\nmon = SerialMonitor(9600)\n")

GETTERS = {
    "Led": ["d.get_state()", "d.get_brightness()"],
    "RGBLed": [],
    "Servo": ["d.read()", "d.read_us()"],
    "DCMotor": ["d.get_speed()", "d.get_applied_speed()", "d.is_inverted()", "d.get_mode()"],
}
DECL = {"Led": "d = Led(9)", "RGBLed": "d = RGBLed(9, 10, 11)", "Servo": "d = Servo(6)", "DCMotor": "d = DCMotor(2, 3, 5)"}

COMMANDS = {
    "Led": {
        "on-off-toggle": ["d.on()", "d.off()", "d.toggle()", "d.toggle()"],
        "set_brightness": ["d.set_brightness(0)", "d.set_brightness(1)", "d.set_brightness(128)", "d.set_brightness(255)", "d.set_brightness(value=77)"],
        "blink": ["d.blink(30)", "d.blink(20, 3)", "d.blink(duration_ms=15, times=2)", "d.blink(10, times=4)", "d.on()", "d.blink(25, 2)"],
        "fade": ["d.fade_in()", "d.fade_out()", "d.fade_in(50, 3)", "d.fade_out(step=60, delay_ms=2)", "d.fade_in(delay_ms=1, step=100)", "d.set_brightness(40)", "d.fade_in(64, 1)"],
        "flash_pattern": ["d.flash_pattern([1, 0, 1])", "d.flash_pattern([1, 1, 0, 1], 30)", "d.flash_pattern([0, 1], delay_ms=7)"],
        # patterns of one entry, of equal entries, given as a tuple or through a variable; entry 1 is "fully on", other values are levels
        "flash_pattern-short": ["d.flash_pattern([1])", "d.flash_pattern([0], 5)", "d.flash_pattern([1], 9)", "d.flash_pattern([128], 5)", "d.flash_pattern([255])", "d.flash_pattern((1,), 4)",
                                "d.flash_pattern([1, 1], 6)", "d.flash_pattern([True], 3)", "d.flash_pattern([0, 0])", "d.flash_pattern([2, 1, 254], 5)"],
    },
    "RGBLed": {
        "set_color-on-off": ["d.set_color(1, 2, 3)", "d.off()", "d.on()", "d.on(10, 20, 30)", "d.on(red=5, green=0, blue=0)", "d.set_color(0, 0, 0)", "d.set_color(red=255, green=128, blue=64)"],
        "blink": ["d.blink(255, 0, 64)", "d.blink(255, 0, 64, 3, 40)", "d.blink(1, 2, 3, 2)", "d.blink(9, 9, 9, times=2, delay_ms=15)", "d.blink(red=1, green=1, blue=1, delay_ms=5)",
                  "d.set_color(7, 8, 9)", "d.blink(100, 100, 100, 2, 10)"],
        "fade-with-sub-millisecond-steps": ["d.fade(200, 100, 50, 20)", "d.fade(10, 20, 30, duration_ms=10, steps=40)", "d.fade(0, 0, 0, 7)", "d.fade(255, 255, 255, 1, 3)"],
        "fade": ["d.fade(10, 20, 30)", "d.fade(200, 0, 100, 500, 5)", "d.fade(0, 0, 0, duration_ms=100, steps=4)", "d.fade(255, 255, 255, 90)", "d.fade(red=3, green=2, blue=1, steps=2)"],
    },
    "Servo": {
        "write": ["d.write(0)", "d.write(90)", "d.write(180)", "d.write(45.5)", "d.write(179.25)", "d.write(angle=10)"],
        "write_us": ["d.write_us(544)", "d.write_us(1500)", "d.write_us(2400)", "d.write_us(1000.5)", "d.write_us(pulse=1000)"],
    },
    "DCMotor": {
        "set_speed": ["d.set_speed(0.5)", "d.set_speed(-0.25)", "d.set_speed(1.7)", "d.set_speed(-2.5)", "d.set_speed(0)", "d.set_speed(value=0.75)", "d.set_speed(1)"],
        "backward-stop-coast-invert": ["d.backward()", "d.backward(0.3)", "d.stop()", "d.set_speed(0.6)", "d.coast()", "d.invert()", "d.set_speed(0.4)", "d.invert()", "d.backward(speed=0.9)", "d.backward(-0.5)", "d.invert()", "d.backward(-0.25)"],
        "ramp-to-current-speed": ["d.set_speed(0.5)", "d.ramp(0.5, 400)", "d.stop()", "d.ramp(0.0, 100)", "d.ramp(0, 60)", "d.set_speed(-1)", "d.ramp(-1.0, 200)"],
        "ramp": ["d.ramp(1.0, 200)", "d.ramp(-0.5, 100)", "d.ramp(target_speed=0.25, duration_ms=60)", "d.set_speed(1.7)", "d.ramp(0.0, 100)"],
        "run_for": ["d.run_for(100, 0.5)", "d.run_for(50, -1.0)", "d.run_for(duration_ms=30, speed=0.2)"],
    },
}


INITIAL = {
    "Led": ["d = Led(9)", "d = Led()"],
    "Servo": ["d = Servo(6)", "d = Servo(6, min_angle=15.0, max_angle=120.0)", "d = Servo(6, min_angle=-90, max_angle=90)", "d = Servo(6, min_pulse_us=700, max_pulse_us=2000)",
              "d = Servo(6, min_angle=30, max_angle=150, min_pulse_us=1000, max_pulse_us=2000)"],
    "DCMotor": ["d = DCMotor(2, 3, 5)"],
}
FIRST_COMMAND = {"Led": "d.toggle()", "Servo": "d.write(45)", "DCMotor": "d.invert()"}


def actuator_scripts():
    out = {}
    # the state every query reports BEFORE the first command (as constructed), and after one command
    for kind, decls in INITIAL.items():
        for k, decl in enumerate(decls):
            lines = [decl] + [f"mon.write({g})" for g in GETTERS[kind]] + [FIRST_COMMAND[kind]] + [f"mon.write({g})" for g in GETTERS[kind]]
            out[f"{kind}/initial-queries/{k}"] = IMPORTS + "\n".join(lines) + "\n"
    # a name re-bound to the same kind of device on other pins: from then on every command goes to the new pins
    REDECL = {"Led": ("d = Led(5)", "d = Led(6)", ["d.on()", "d.set_brightness(77)", "d.toggle()"]), "RGBLed": ("d = RGBLed(9, 10, 11)", "d = RGBLed(3, 7, 8)", ["d.set_color(10, 20, 30)", "d.off()", "d.on(1, 2, 3)"])}
    for kind, (d1, d2, cmds) in REDECL.items():
        out[f"{kind}/redeclared-on-other-pins"] = IMPORTS + "\n".join([d1] + cmds + ["mon.write('--')", d2] + cmds + ["mon.write('--')"]) + "\n"
        out[f"{kind}/redeclared-on-other-pins/in-loop"] = IMPORTS + d1 + "\n" + cmds[0] + "\nwhile True:\n" + "\n".join("    " + c for c in [d2] + cmds + [d1.replace("d = ", "d = ")] + cmds[:1]) + "\n    sleep(1)\n"
    for kind, groups in COMMANDS.items():
        for gname, cmds in groups.items():
            lines = [DECL[kind]]
            for c in cmds:
                lines.append(c)
                lines.append("mon.write('--')")
                lines += [f"mon.write({g})" for g in GETTERS[kind]]
            out[f"{kind}/{gname}"] = IMPORTS + "\n".join(lines) + "\n"
            # the same commands with every query stored in a variable first (the variable's declared type must hold the value)
            if GETTERS[kind]:
                lines = [DECL[kind]]
                for c in cmds:
                    lines.append(c)
                    for k, g in enumerate(GETTERS[kind]):
                        lines += [f"q{k} = {g}", f"mon.write(q{k})"]
                out[f"{kind}/{gname}/queries-via-variables"] = IMPORTS + "\n".join(lines) + "\n"
            # the same commands inside the main loop (run-time state carried across passes)
            body = []
            for c in cmds[:4]:
                body.append("    " + c)
                body += [f"    mon.write({g})" for g in GETTERS[kind]]
            out[f"{kind}/{gname}/in-loop"] = IMPORTS + DECL[kind] + "\nwhile True:\n" + "\n".join(body) + "\n    sleep(1)\n"
    return out


LCD_DECLS = {"parallel": "d = LCD(rs=22, en=23, d4=24, d5=25, d6=26, d7=27)", "i2c": "d = LCD(i2c_addr=0x27)", "8x2": "d = LCD(i2c_addr=0x3F, cols=8, rows=2)", "40x2": "d = LCD(i2c_addr=0x26, cols=40, rows=2)", "24x2": "d = LCD(rs=22, en=23, d4=24, d5=25, d6=26, d7=27, cols=24, rows=2)",
             "20x4": "d = LCD(rs=22, en=23, d4=24, d5=25, d6=26, d7=27, cols=20, rows=4)"}
LCD_COMMANDS = {
    "write": ["d.write(0, 0, 'hello')", "d.write(3, 1, 'abc')", "d.write(0, 0, 'xy', align='right')", "d.write(2, 1, 'mid', align='center')", "d.write(0, 1, 'Q', align='Center')",
              "d.write(0, 0, 'R', align='RIGHT')", "d.write(10, 0, 'overflowing text')", "d.write(0, 1, 'clr', clear_row=True)", "d.write(5, 0, 'keep', clear_row=False)", "d.write(0, 0, '')"],
    "line": ["d.line(0, 'top line')", "d.line(1, 'right', align='right')", "d.line(0, 'ctr', align='center')", "d.line(1, 'Mixed', align='Right')", "d.line(0, 'a much longer line than the display is wide')",
             "d.line(1, '')", "d.line(0, 'kw', align='left')"],
    "message-keeps-other-rows": ["d.line(0, 'r0')", "d.line(1, 'r1')", "d.message('top', 'bottom')", "d.message('only')", "d.message(None, 'b2')", "d.message('t3', 'b3', clear_rows=True)"],
    "message": ["d.message('top', 'bottom')", "d.message('only top')", "d.message(None, 'only bottom')", "d.message(bottom='kw bottom')", "d.message('a', 'b', top_align='center', bottom_align='right')",
                "d.message('T', 'B', top_align='Center', bottom_align='RIGHT')", "d.message(None, 'x', bottom_align='center', clear_rows=False)", "d.message('keep', None, clear_rows=False)",
                "d.message(top='t2', bottom='b2', clear_rows=True)"],
    "quotes-and-backslashes": ["d.line(0, 'Say \"hi\" to everyone')", "d.line(1, 'a\\\\b\\\\c\\\\d\\\\e\\\\f\\\\g\\\\h\\\\i')", "d.write(2, 0, '\"\"\"\"\"\"\"\"\"\"\"\"\"\"\"\"\"\"\"\"')", "d.line(1, 'x\"y', align='right')",
                               "d.write(0, 1, 'tab\\there', align='center')", "d.message('\"top\"', 'it\\'s')"],
    "long-rows-cleared-by-short-texts": ["d.line(0, '0123456789012345678901234567890123456789')", "d.line(0, 'short')", "d.write(0, 1, 'abcdefghijklmnopqrstuvwxyzABCDEFGHIJKLMN', clear_row=False)", "d.write(3, 1, 'x')",
                                         "d.message('0123456789012345678901234567', 'abcdefghijklmnopqrstuvwxyzAB')", "d.message('t', 'b')"],
    "clear-and-write": ["d.write(0, 0, 'abc')", "d.clear()", "d.write(1, 1, 'z')", "d.line(0, 'full')", "d.clear()"],
    # value * width is a multiple of max_value in every call: the property demands identical bars exactly there
    "progress": ["d.progress(0, 50)", "d.progress(1, 50, 200)", "d.progress(1, 150, max_value=200)", "d.progress(0, 5, 10, width=8)", "d.progress(1, 100, style='hash')", "d.progress(0, 3, 4, label='L')",
                 "d.progress(1, 0)", "d.progress(0, 250)", "d.progress(1, 45, 90, width=10, style='block', label='ab')", "d.progress(0, 75, style='Hash')"],
}


def lcd_scripts():
    out = {}
    for dname, decl in LCD_DECLS.items():
        for gname, cmds in LCD_COMMANDS.items():
            lines = [decl]
            if dname == "20x4":
                lines += ["d.line(2, 'keep row two')", "d.line(3, 'keep row three')"]
            for k, c in enumerate(cmds):
                if dname == "8x2":
                    c = c.replace("d.write(10, 0,", "d.write(6, 0,")      # the property speaks of in-range columns: column 10 does not exist on 8 columns
                lines.append(c)
                lines.append(f"mon.write('-- {k}')")
            out[f"LCD-{dname}/{gname}"] = IMPORTS + "\n".join(lines) + "\n"
    return out


def lcd_snapshots(events):
    """cells at every serial marker: [(marker, {row: text})]"""
    rows, out = {}, []
    for e in events:
        if e.startswith("L:"):
            _, r, text = e.split(":", 2)
            rows[int(r)] = text
        elif e.startswith("S:"):
            out.append((e[2:], dict(rows)))
    return out


def device_differential(src, passes=2, lcd=False):
    host = host_events(src, passes)
    if host["status"].startswith(("crash", "timeout")):
        return {"verdict": "harness-" + host["status"].split(":")[0], "detail": host["status"]}
    if host["status"] != "ok":
        return {"verdict": "python-undefined", "detail": host["status"]}
    cpp, err = transpile(src)
    if cpp is None:
        return {"verdict": "rejected", "detail": err}
    fw = run_sketch(cpp, passes=passes)
    if not fw.get("compiled"):
        return {"verdict": "does-not-compile", "detail": fw.get("errors", "")[-500:]}
    if fw.get("timeout") or fw.get("rc", 0) != 0:
        return {"verdict": "crash", "detail": fw.get("stderr", "timeout")}
    if lcd:
        hs, fs = lcd_snapshots(host["events"]), lcd_snapshots(fw["events"])
        if [m for m, _ in hs] != [m for m, _ in fs]:
            return {"verdict": "differs", "first_difference": {"markers_host": [m for m, _ in hs][:12], "markers_firmware": [m for m, _ in fs][:12]}}
        for (m, hr), (_, fr) in zip(hs, fs):
            for r in sorted(set(hr) | set(fr)):
                a, b = hr.get(r, ""), fr.get(r, "")
                if a.rstrip() != b.rstrip() and not (a == "" and b.strip() == "") and not (b == "" and a.strip() == ""):
                    return {"verdict": "differs", "first_difference": {"after": m, "row": r, "host_cells": a, "firmware_cells": b}}
        if any(e.startswith("LCD-OUT-OF-RANGE") for e in fw["events"]):
            return {"verdict": "differs", "first_difference": {"firmware": "wrote outside the display"}}
        return {"verdict": "same", "markers": len(hs)}
    from progs.diff import compare, _strip_empty_passes
    h, f = _strip_empty_passes(observable(host["events"])), _strip_empty_passes(observable(fw["events"]))
    d = compare(h, f)
    if d is None:
        # "per pin, the same sequence of output levels": the levels the host Led / RGBLed command (P:) against the levels written on the
        # device (W:), per pin, as sequences of level CHANGES (a repeated level is not an output event), PWM levels within one count
        def changes(events, tag):
            per = {}
            for e in events:
                if e.startswith(tag):
                    _, pin, val = e.split(":")
                    seq = per.setdefault(pin, [0])
                    if int(val) != seq[-1]:
                        seq.append(int(val))
            return per
        hp, fp = changes(host["events"], "P:"), changes(fw["events"], "W:")
        for pin, hs in hp.items():
            fs = fp.get(pin, [0])
            if len(hs) != len(fs) or any(abs(a - b) > 1 for a, b in zip(hs, fs)):
                k = next((i for i, (a, b) in enumerate(zip(hs, fs)) if abs(a - b) > 1), min(len(hs), len(fs)))
                return {"verdict": "differs", "first_difference": {"pin": pin, "level_change_number": k, "host_levels": hs[max(0, k - 2):k + 4], "firmware_levels": fs[max(0, k - 2):k + 4],
                                                                     "counts": [len(hs), len(fs)]}}
        return {"verdict": "same", "events": len(h), "pins_compared": sorted(hp)}
    return {"verdict": "differs", "first_difference": d, "cpython": h[max(0, d["index"] - 6):d["index"] + 3], "firmware": f[max(0, d["index"] - 6):d["index"] + 3]}


def _one(args):
    name, src, lcd = args
    try:
        r = device_differential(src, 2, lcd)
    except Exception as ex:
        r = {"verdict": "harness-crash", "detail": f"{type(ex).__name__}: {ex}"}
    r["name"] = name
    r["script"] = src
    return r


def run(scripts, lcd=False, jobs=16):
    import multiprocessing as mp
    with mp.Pool(jobs) as pool:
        return pool.map(_one, [(n, s, lcd) for n, s in sorted(scripts.items())], chunksize=1)


if __name__ == "__main__":
    import collections
    which = sys.argv[1] if len(sys.argv) > 1 else "act"
    res = run(actuator_scripts()) if which == "act" else run(lcd_scripts(), lcd=True)
    print(collections.Counter(r["verdict"] for r in res))
    for r in res:
        if r["verdict"] != "same":
            print(r["name"], r["verdict"], str(r.get("first_difference") or r.get("detail"))[:400].replace("\n", " | "))
            if r.get("cpython"):
                print("   cpython :", r["cpython"], "\n   firmware:", r["firmware"])


def obligations(prefix, scripts, lcd=False, what=""):
    """bounded obligations (one per script) for a contract module's extra_obligations"""
    import time
    t0 = time.time()
    res = run(scripts, lcd=lcd)
    per = round((time.time() - t0) / max(1, len(res)), 3)
    out = []
    for r in res:
        v = r["verdict"]
        ok = v in ("same", "rejected", "python-undefined")
        status = "discharged" if ok else ("unknown" if v.startswith("harness") else "sat")
        out.append({"name": f"{prefix}/{r['name']}", "status": status, "backend": "bounded-differential", "bounded": True,
                    "where": f"device script '{r['name']}' with literal arguments through the real parser: {what} [{v}]", "time": per,
                    "replay": {k: r.get(k) for k in ("script", "verdict", "first_difference", "detail", "cpython", "firmware") if r.get(k) is not None},
                    "replay_confirmed": status == "sat"})
    return out
