"""C17 - LCD text: same characters in the same cells on device and host, never off-row.

Device side: the helper templates of LCD_HELPER_SNIPPET (the emitter's own string constant, instantiated at
LiquidCrystal by a three-line driver and translated by cxx2py) are proved against a ghost model of the display: the
image of the row being written, the cursor, and - as a PRECONDITION OF EVERY print - that the text stays inside its
row and the display width.  Host side: Displays/LCD.py `_place_text`, `line`, `write` against the same `place`
specification; progress-bar lemmas relate host rounding and device flooring."""
import time

from pyvc.contracts import Registry
from cxxvc import cxx2py, harvest as H
from pyvc import loader

FW = "@gen/c17_fw.py"
LCDF = "Reduino/Displays/LCD.py"

PROPERTY = {
    "level": "proof",
    "expect_min_obligations": 100,
    "explanation": "Device: the templates __redu_lcd_clear_row, __redu_lcd_write_aligned and __redu_lcd_progress (the emitter's own "
                   "string constant, instantiated at LiquidCrystal, translated by cxx2py) are proved against a ghost display model in "
                   "which EVERY print carries the obligation 'inside its row and the display width'; write_aligned leaves exactly "
                   "place(row image or blanks, col, text, align) in the row. Host: LCD._place_text, line and write are proved to store "
                   "the SAME place(...) image into the row and to leave every other row unchanged, so device and host cells agree for "
                   "all sizes 1..40 x 1..4, texts of any length, columns, alignments and clear flags. Progress: the host row image is "
                   "label + F glyphs + blanks with F = round-half-even(clamp(v/m)*w); the device computes floor(clamp(v)*w/m); lemmas "
                   "(for all v, m >= 1, w in 1..40): both monotone, both saturate at 0 and w, equal when m | clamp(v)*w, differ by at "
                   "most one cell. Not covered: message(), glyph upload, backlight/brightness pin commands, the I2C instantiation, the "
                   "per-call-site fragments (argument wiring).",
    "trusted_base": ["pyvc (z3/cvc5 string theory)", "cxx2py translation of clang's AVR AST", "mock LiquidCrystal.h/Arduino.h"],
    "assumptions": [
        "A-LCD: setCursor(c, r) moves the cursor; print(s) writes len(s) cells starting at the cursor on the cursor's row and advances "
        "the cursor; a print outside the row/width is forbidden (it is the obligation at every print)",
        "Arduino String semantics as in the mock header (length(), substring(begin, end) clamped to the length, += appends)",
        "in-range row and column (0 <= row < rows, 0 <= col < cols), cols within 1..40",
        "str * int / str.ljust are modelled by the recursive function blanks(n) with its length lemma",
    ],
}

_REC = {}


def engine_setup(eng):
    import z3
    from pyvc.sym import V, vstr, vint, as_int_term
    from pyvc import events
    events.install(eng)
    S = z3.StringSort()
    if "blanks" not in _REC:
        f = z3.RecFunction("blanks", z3.IntSort(), S)
        n = z3.Int("n")
        z3.RecAddDefinition(f, [n], z3.If(n <= 0, z3.StringVal(""), z3.Concat(f(n - 1), z3.StringVal(" "))))
        _REC["blanks"] = f

    def blanks(e, st, n):
        from pyvc.engine import py_repeat
        return vstr(py_repeat(None, z3.StringVal(" "), as_int_term(n)))

    def chars(e, st, lst):
        cell = lst.t if lst.k == "cell" else st.heap[lst.t]
        return vstr(cell.s)

    def row_store(e, st, new, old, r, s):
        """new buffer == old buffer with row r replaced by s (every other row unchanged)"""
        cn = new.t if new.k == "cell" else st.heap[new.t]
        co = old.t if old.k == "cell" else st.heap[old.t]
        from pyvc.sym import vbool
        return vbool(z3.And(cn.arr == z3.Store(co.arr, as_int_term(r), s.t), cn.n == co.n))

    def buf_same(e, st, a, b):
        ca = a.t if a.k == "cell" else st.heap[a.t]
        cb = b.t if b.k == "cell" else st.heap[b.t]
        from pyvc.sym import vbool
        return vbool(z3.And(ca.arr == cb.arr, ca.n == cb.n))

    def repeat(e, st, s, n):
        from pyvc.engine import py_repeat
        return vstr(py_repeat(None, s.t, as_int_term(n)))

    def ljust(e, st, s, n):
        from pyvc.engine import py_repeat
        return vstr(z3.Concat(s.t, py_repeat(None, z3.StringVal(" "), as_int_term(n) - z3.Length(s.t))))

    def glyph_of(e, st, style):
        t = style.t
        return vstr(z3.If(t == z3.StringVal("hash"), z3.StringVal("#"), z3.If(t == z3.StringVal("pipe"), z3.StringVal("|"),
                    z3.If(t == z3.StringVal("dot"), z3.StringVal("."), z3.StringVal("\u2588")))))

    def label_prefix(e, st, label):
        if label.k == "none":
            return vstr("")
        return vstr(z3.If(label.t == z3.StringVal(""), z3.StringVal(""), z3.Concat(label.t, z3.StringVal(" "))))

    def width_of(e, st, width, cols):
        if width.k == "none":
            return vint(as_int_term(cols))
        w, cc = as_int_term(width), as_int_term(cols)
        # the same term shape the engine builds for max(1, min(cols, width)): keeps the obligation syntactic
        m = z3.If(w < cc, w, cc)
        return vint(z3.If(m > 1, m, z3.IntVal(1)))

    eng.spec_funcs.update(width_of=width_of)
    eng.spec_funcs.update(buf_same=buf_same, repeat=repeat, ljust=ljust, glyph_of=glyph_of, label_prefix=label_prefix)

    def align_index(e, st, a):
        return vint(z3.If(a.t == z3.StringVal("center"), 1, z3.If(a.t == z3.StringVal("right"), 2, 0)))

    eng.spec_funcs.update(chars=chars, row_store=row_store, align_index=align_index)

    def sub(s, a, b):
        """s[a:b] for 0 <= a <= b <= len(s)"""
        return z3.SubString(s, a, b - a)

    def place(e, st, pre, col, text, align, cols):
        pre, text = pre.t, text.t
        col, cols, al = as_int_term(col), as_int_term(cols), as_int_term(align)
        avail = cols - col
        n = z3.If(z3.Length(text) > avail, avail, z3.Length(text))
        content = z3.SubString(text, 0, n)
        room = avail - n
        off = z3.If(al == 1, col + room / 2, z3.If(al == 2, col + room, col))
        return vstr(z3.Concat(sub(pre, z3.IntVal(0), off), content, sub(pre, off + n, cols)))

    def splice(e, st, img, at, s):
        img, at, s = img.t, as_int_term(at), s.t
        return vstr(z3.Concat(sub(img, z3.IntVal(0), at), s, sub(img, at + z3.Length(s), z3.Length(img))))

    eng.spec_funcs.update(blanks=blanks, place=place, splice=splice)


def device_text():
    from contracts.c08 import real
    E = real("Reduino.transpile.emitter")
    return """
#include <Arduino.h>
#include <LiquidCrystal.h>
%s
void __drv(LiquidCrystal &lcd, int a, int b, int c, const String &s, bool f, __redu_lcd_align al, char ch,
           __redu_lcd_animation_state &st, unsigned long sp) {
  __redu_lcd_clear_row(lcd, a, b);
  __redu_lcd_write_aligned(lcd, a, b, c, s, f, al);
  __redu_lcd_progress(lcd, a, b, c, a, b, ch, s);
  __redu_lcd_start_scroll(st, lcd, a, b, s, sp, f); __redu_lcd_tick_scroll(st, lcd, a);
  __redu_lcd_start_blink(st, lcd, a, b, s, sp, f); __redu_lcd_tick_blink(st, lcd, a);
  __redu_lcd_start_typewriter(st, lcd, a, b, s, sp, f); __redu_lcd_tick_typewriter(st, lcd, a);
  __redu_lcd_start_bounce(st, lcd, a, b, s, sp, f); __redu_lcd_tick_bounce(st, lcd, a);
}
""" % E.LCD_HELPER_SNIPPET


_B = {}


def build():
    import hashlib
    reg = Registry()
    for g, k in (("img", "str"), ("trow", "int"), ("ccol", "int"), ("crow", "int"), ("cols_g", "int"), ("rows_g", "int"), ("prints", "int")):
        reg.ghost(g, k)
    text = device_text()
    key = "c17-" + hashlib.sha256((text + open(cxx2py.__file__).read()).encode()).hexdigest()[:20]
    hit = H._cache_get(key)
    if hit is None:
        tu, _ = cxx2py.run_clang(text)
        T = cxx2py.Translator(tu)
        hit = {f: T.function(f) for f in T.functions if f != "__drv"}
        H._cache_put(key, hit)
    loader.GENERATED[FW] = "\n\n".join(hit.values()) + "\n"
    _B["sha"] = hashlib.sha256(text.encode()).hexdigest()
    _B["functions"] = sorted(hit)
    # ---- assumed display contracts
    reg.unit("LiquidCrystal.setCursor", "<extern>", extern=True, public=False, params={"col": "int", "row": "int"},
             modifies=["ghost.ccol", "ghost.crow"], ensures=["ccol == col", "crow == row"], note="ASSUMED (A-LCD)")
    reg.unit("LiquidCrystal.print", "<extern>", extern=True, public=False, params={"s": "str"},
             requires=["0 <= crow < rows_g", "0 <= ccol", "ccol + len(s) <= cols_g"],
             modifies=["ghost.img", "ghost.ccol", "ghost.prints"],
             ensures=["img == ite(crow == trow, splice(old(img), old(ccol), s), old(img))", "ccol == old(ccol) + len(s)",
                      "prints == old(prints) + 1"],
             note="ASSUMED (A-LCD); the precondition is the property's 'never outside its row or beyond the width'")
    GEO = ["1 <= cols <= 40", "cols == cols_g", "1 <= rows_g <= 4", "0 <= row < rows_g", "trow == row", "len(img) == cols"]
    MOD = ["ghost.img", "ghost.ccol", "ghost.crow", "ghost.prints"]
    reg.unit("__redu_lcd_clear_row__LiquidCrystal", FW, params={"lcd": "ext:LiquidCrystal", "cols": "int", "row": "int"}, public=False,
             requires=GEO, modifies=MOD,
             loops={0: {"inv": ["0 <= i <= cols", "k == i", "crow == row", "ccol == i", "len(img) == cols", "len(blanks(i)) == i",
                                "img == blanks(i) + old(img)[i:]"]}},
             ensures=["img == blanks(cols)", "len(img) == cols", "len(blanks(cols)) == cols"])
    reg.unit("__redu_lcd_write_aligned__LiquidCrystal", FW,
             params={"lcd": "ext:LiquidCrystal", "cols": "int", "col": "int", "row": "int", "text": "str", "clear_row": "bool", "align": "int"},
             public=False, requires=GEO + ["0 <= col < cols", "0 <= align <= 2", "len(text) <= 30000"], modifies=MOD,
             ensures=["img == place(ite(clear_row, blanks(cols), old(img)), col, text, align, cols)", "len(img) == cols"])
    # ------------------------------------------------------------------ host side (Displays/LCD.py)
    reg.cls("LCD", LCDF, fields={"cols": "int", "rows": "int", "buffer": "alist[str]"},
            inv=["1 <= self.cols <= 40", "1 <= self.rows <= 4", "len(self.buffer) == self.rows"])
    reg.unit("LCD._validate_row", LCDF, public=False, inline=True)
    reg.unit("LCD._resolve_align", LCDF, public=False, inline=True)
    ALN = ["align == 'left' or align == 'center' or align == 'right'"]
    PRE = "old(self.buffer[row])"
    reg.unit("LCD._place_text", LCDF, public=False, params={"row": "int", "text": "str", "align": "str", "start_col": "int"},
             requires=["1 <= self.cols <= 40", "1 <= self.rows <= 4", "len(self.buffer) == self.rows", "0 <= row < self.rows",
                       "len(self.buffer[row]) == self.cols", "0 <= start_col < self.cols", "len(text) <= 30000"] + ALN,
             modifies=["self.buffer"],
             loops={0: {"inv": ["0 <= i <= len(content)", "len(chars(line)) == self.cols", "row_idx == row",
                                "len(content) <= self.cols - start_col", "start_col <= col", "col + len(content) <= self.cols",
                                "chars(line) == old(self.buffer[row])[:col] + content[:i] + old(self.buffer[row])[col + i:]",
                                "buf_same(self.buffer, old(self.buffer))"]}},
             ensures=[f"row_store(self.buffer, old(self.buffer), row, place({PRE}, start_col, text, align_index(align), self.cols))",
                      "len(self.buffer[row]) == self.cols"])
    for m, colx in (("line", "0"), ("write", "col")):
        params = {"row": "int", "text": "str", "align": "str", "clear_row": "bool"}
        if m == "write":
            params = {"col": "int", **params}
        reg.unit(f"LCD.{m}", LCDF, params=params,
                 requires=["0 <= row < self.rows", "len(self.buffer[row]) == self.cols", "len(text) <= 30000"] + ALN +
                          (["0 <= col < self.cols"] if m == "write" else []),
                 modifies=["self.buffer"],
                 ensures=[f"row_store(self.buffer, old(self.buffer), row, place(ite(clear_row, blanks(self.cols), {PRE}), {colx}, text, "
                          "align_index(align), self.cols))", "len(self.buffer[row]) == self.cols"])
    # host progress bar: row image = label prefix + bar, bar = F glyph cells then blanks, F = round-half-even(clamp(value/max) * W)
    W = "width_of(width, self.cols)"
    RATIO = "ite(max_value <= 0, 0.0, max(0.0, min(1.0, real(value) / real(max_value))))"
    Fh = f"rhe({RATIO} * {W})"
    BAR = f"repeat(glyph_of(style), {Fh}) + blanks(max(0, {W} - {Fh}))"
    V = {"v": "int", "m": "int", "w": "int", "v2": "int"}
    HOST = lambda v: f"rhe(max(0.0, min(1.0, real({v}) / real(m))) * w)"
    DEV = lambda v: f"((max(0, min({v}, m)) * w) // m)"
    H0 = "m >= 1 and 1 <= w <= 40"
    lemmas = [
        ("progress-host-monotone", V, f"implies({H0} and v <= v2, {HOST('v')} <= {HOST('v2')})"),
        ("progress-device-monotone", V, f"implies({H0} and v <= v2, {DEV('v')} <= {DEV('v2')})"),
        ("progress-saturates-at-zero", V, f"implies({H0} and v <= 0, {HOST('v')} == 0 and {DEV('v')} == 0)"),
        ("progress-saturates-at-width", V, f"implies({H0} and v >= m, {HOST('v')} == w and {DEV('v')} == w)"),
        ("progress-equal-on-multiples", V, f"implies({H0} and (max(0, min(v, m)) * w) % m == 0, {HOST('v')} == {DEV('v')})"),
        ("progress-differs-by-at-most-one-cell", V, f"implies({H0}, 0 <= {HOST('v')} - {DEV('v')} and {HOST('v')} - {DEV('v')} <= 1)"),
    ]
    reg.unit("LCD.progress", LCDF, params={"row": "int", "value": "int", "max_value": "int", "width": "int|none", "style": "str", "label": "str|none"},
             requires=["0 <= row < self.rows", "style == 'block' or style == 'hash' or style == 'pipe' or style == 'dot'"],
             modifies=["self.buffer"], lemmas=lemmas,
             ensures=[f"row_store(self.buffer, old(self.buffer), row, ljust((label_prefix(label) + {BAR})[:self.cols], self.cols))"],
             note="host: filled = round-half-even(clamp(value/max_value) * width); lemmas relate it to the device's floor(clamp(value)*width/max)")
    # device progress template: filled = floor(clamp(value) * width / max) (max_value <= 0 treated as 1), bar printed inside the row
    reg.unit("__redu_lcd_progress__LiquidCrystal", FW,
             params={"lcd": "ext:LiquidCrystal", "cols": "int", "row": "int", "value": "int", "max_value": "int", "width": "int",
                     "fill": "str", "label": "str"}, public=False,
             requires=GEO + ["len(fill) == 1", "len(label) <= 30000", "-32768 <= value <= 32767", "-32768 <= max_value <= 32767",
                             "-32768 <= width <= 32767"], modifies=MOD,
             loops={0: {"locals": ["width", "max_value", "value"],
                        "inv": ["0 <= i <= width", "k == i", "1 <= width <= cols", "0 <= filled <= width", "max_value >= 1", "0 <= value <= max_value",
                                "len(bar) == i", "bar == repeat(fill, min(i, filled)) + blanks(max(0, i - filled))",
                                "len(repeat(fill, min(i, filled))) == min(i, filled)", "len(blanks(max(0, i - filled))) == max(0, i - filled)",
                                "len(img) == cols", "same(img, old(img))"]}},
             ensures=["len(img) == cols",
                      "local_filled == (max(0, min(value, local_max_value)) * local_width) // local_max_value"],
             note="device: filled = floor(clamp(value)*width/max_value) with max_value <= 0 -> 1, width <= 0 or > cols -> cols")
    return reg


def _de_bruijn(k, n):
    a, seq = [0] * k * n, []

    def db(t, p):
        if t > n:
            if n % p == 0:
                seq.extend(a[1:p + 1])
        else:
            a[t] = a[t - p]
            db(t + 1, p)
            for j in range(a[t - p] + 1, k):
                a[t] = j
                db(t + 1, t)
    db(1, 1)
    return seq + seq[:n - 1]


def backlight_and_glyph_obligations(HostLCD):
    """executed on the firmware mock against the real host model (BOUNDED): (1) one script that walks every ordered triple of the seven
    display/backlight/brightness commands (a de Bruijn sequence), with literal and with variable arguments: after every command the
    backlight pin level is 0 when the host model says off and the host's brightness_level when on; (2) glyph uploads under control flow:
    the rows last uploaded to each slot equal the host model's glyph table"""
    import time as _time
    from progs.diff import transpile
    from fwsim.run import run_sketch
    from progs.devdiff import IMPORTS
    out = []
    CMDS = [("display", True), ("display", False), ("backlight", True), ("backlight", False), ("brightness", 0), ("brightness", 60), ("brightness", 255)]
    seq = [CMDS[i] for i in _de_bruijn(7, 3)]
    for form in ("literal", "variable"):
        t0 = _time.time()
        lines = ["d = LCD(rs=22, en=23, d4=24, d5=25, d6=26, d7=27, backlight_pin=10)"]
        for k, (m, v) in enumerate(seq):
            lines += ([f"d.{m}({v})"] if form == "literal" else [f"{'tb' if isinstance(v, bool) else 'ti'}{k % 3} = {v}", f"d.{m}({'tb' if isinstance(v, bool) else 'ti'}{k % 3})"]) + [f"mon.write('m{k}')"]
        src = IMPORTS + "\n".join(lines) + "\n"
        problems = []
        try:
            host = HostLCD(rs=22, en=23, d4=24, d5=25, d6=26, d7=27, backlight_pin=10)
            expect = []
            for m, v in seq:
                getattr(host, m)(v)
                expect.append(host.brightness_level if host.backlight_on else 0)
            cpp, err = transpile(src)
            if cpp is None:
                problems.append("rejected: " + str(err))
            else:
                r = run_sketch(cpp, passes=0)
                if not r.get("compiled"):
                    problems.append("does not compile: " + r.get("errors", "")[-200:])
                else:
                    level, k = None, 0
                    for e in r["events"]:
                        if e.startswith("W:10:"):
                            level = int(e.split(":")[2])
                        elif e.startswith("S:m"):
                            if level != expect[k] and not (level is None and expect[k] == 255 and k < 3):
                                problems.append(f"after command #{k} ({seq[k][0]}({seq[k][1]}), preceded by {[c[0] + '(' + str(c[1]) + ')' for c in seq[max(0, k - 2):k]]}): "
                                                f"backlight pin is at {level}, the host model says {expect[k]}")
                                if len(problems) >= 4:
                                    break
                            k += 1
                    if k < len(seq) and not problems:
                        problems.append(f"only {k} of {len(seq)} markers reached")
        except Exception as ex:
            problems.append(f"{type(ex).__name__}: {ex}")
        out.append({"name": f"C17/backlight/every-command-triple/{form}-arguments", "status": "discharged" if not problems else "sat", "backend": "bounded-differential", "bounded": True,
                    "where": f"{len(seq)} commands covering every ordered triple of display/backlight/brightness ({form} arguments): pin level = host model after each command",
                    "time": round(_time.time() - t0, 2), "replay": {"problems": problems[:4]}, "replay_confirmed": bool(problems)})
    GLYPH = {
        "upload-in-untaken-branch-then-same-upload": "c = 0\nif c > 5:\n    d.glyph(0, [1, 2, 3, 4, 5, 6, 7, 8])\nd.glyph(0, [1, 2, 3, 4, 5, 6, 7, 8])\n",
        "helper-overwrites-between-two-equal-uploads": "def other():\n    d.glyph(1, [31, 0, 31, 0, 31, 0, 31, 0])\nd.glyph(1, [4, 4, 4, 4, 4, 4, 4, 4])\nother()\nd.glyph(1, [4, 4, 4, 4, 4, 4, 4, 4])\n",
        "loop-body-reuploads": "k = 0\nwhile True:\n    d.glyph(2, [1, 1, 1, 1, 1, 1, 1, 1])\n    k = k + 1\n    d.glyph(2, [2, 2, 2, 2, 2, 2, 2, 2])\n    sleep(5)\n",
        "rows-outside-five-bits-are-masked": "d.glyph(3, [32, 64, 255, 31, 0, 33, 95, 63])\nd.glyph(4, [31, 31, 31, 31, 31, 31, 31, 31])\n",
        "negative-rows-are-masked": "d.glyph(5, [-1, -2, -32, -33, 1, 2, 3, 4])\n",
        "two-slots-straight-line": "d.glyph(0, [1, 2, 4, 8, 16, 8, 4, 2])\nd.glyph(7, [31, 31, 0, 0, 31, 31, 0, 0])\nd.glyph(0, [0, 0, 0, 0, 0, 0, 0, 1])\n",
    }
    for gname, body in GLYPH.items():
        t0 = _time.time()
        src = IMPORTS + "d = LCD(rs=22, en=23, d4=24, d5=25, d6=26, d7=27)\n" + body
        problems = []
        try:
            from progs.diff import host_events
            import ast as _ast
            cpp, err = transpile(src)
            if cpp is None:
                problems.append("rejected: " + str(err))
            else:
                r = run_sketch(cpp, passes=2)
                if not r.get("compiled"):
                    problems.append("does not compile: " + r.get("errors", "")[-200:])
                else:
                    last_fw = {}
                    order_fw = []
                    for e in r["events"]:
                        if e.startswith("G:"):
                            _, slot, rows = e.split(":")
                            last_fw[int(slot)] = [int(x) for x in rows.split(",")]
                            order_fw.append((int(slot), last_fw[int(slot)]))
                    # the host: run the same statements on the real class and record every upload in execution order
                    order_host = []
                    host = HostLCD(rs=22, en=23, d4=24, d5=25, d6=26, d7=27)
                    orig = HostLCD.glyph

                    def rec(self, slot, bitmap, _o=orig):
                        _o(self, slot, bitmap)
                        order_host.append((int(slot), [int(x) & 31 for x in self.glyphs[int(slot)]]))
                    HostLCD.glyph = rec
                    try:
                        class _Stop(Exception):
                            pass
                        state = {"n": 0}

                        def fake_sleep(ms):
                            state["n"] += 1
                            if state["n"] >= 2:
                                raise _Stop()
                        try:
                            exec(compile(body, "<glyph>", "exec"), {"d": host, "sleep": fake_sleep})
                        except _Stop:
                            pass
                    finally:
                        HostLCD.glyph = orig
                    final_host = {}
                    for slot, rows in order_host:
                        final_host[slot] = rows
                    if last_fw != final_host:
                        problems.append(f"glyph memory after the run: firmware {last_fw}, host model {final_host}")
        except Exception as ex:
            problems.append(f"{type(ex).__name__}: {ex}")
        out.append({"name": f"C17/glyph/{gname}", "status": "discharged" if not problems else "sat", "backend": "bounded-differential", "bounded": True,
                    "where": f"glyph script '{gname}': the rows last uploaded to each slot on the device equal the host model's glyph table", "time": round(_time.time() - t0, 2),
                    "replay": {"script": src, "problems": problems}, "replay_confirmed": bool(problems)})
    return out


def extra_obligations(mods, tier, seed):
    """end-to-end complement of the template contracts: LCD commands with literal arguments through the real parser and emitter,
    cells on the firmware mock against the host LCD's buffer at every marker (BOUNDED)"""
    from progs import devdiff
    out = devdiff.obligations("C17/diff", devdiff.lcd_scripts(), lcd=True, what="display cells equal the host LCD buffer after every command")
    # seeded generated LCD programs (fixed seeds): random write/line/message/clear/progress sequences, literal / variable arguments,
    # positional or keyword, under branches, loops and the main loop, on the three geometries
    import time as _time
    from progs import gen_lcd
    t_gen = _time.time()
    gen_progs = {}
    for gs, count in ((0, 60),) if tier != "thorough" else ((0, 150), (1, 150), (2, 150), (3, 150)):
        gen_progs.update(gen_lcd.programs(count, seed=gs))
    gres = devdiff.run(gen_progs, lcd=True)
    gbad = [r for r in gres if r["verdict"] not in ("same", "rejected", "python-undefined") and not r["verdict"].startswith("harness")]
    gharness = [r for r in gres if r["verdict"].startswith("harness")]
    out.append({"name": "C17/diff/generated-lcd-programs", "status": "discharged" if not gbad and not gharness else ("sat" if gbad else "unknown"), "backend": "bounded-differential", "bounded": True,
                "where": f"{len(gen_progs)} generated LCD programs (fixed seeds): the display cells at every marker equal the host LCD's "
                         f"[{sum(1 for r in gres if r['verdict'] == 'same')} same, {sum(1 for r in gres if r['verdict'] in ('rejected', 'python-undefined'))} outside the comparison]",
                "time": round(_time.time() - t_gen, 2), "replay": {"failing": [{k: r.get(k) for k in ("name", "verdict", "first_difference", "script")} for r in gbad[:3]]},
                "replay_confirmed": bool(gbad)})
    # host model: two LCD objects share nothing (glyph tables, buffers, backlight flags) - executed on the real class (BOUNDED)
    import sys as _sys
    import time as _time
    from contracts.c08 import real
    real("Reduino.Displays")
    HostLCD = _sys.modules["Reduino.Displays.LCD"].LCD
    t0 = _time.time()
    bad = []
    try:
        a = HostLCD(rs=1, en=2, d4=3, d5=4, d6=5, d7=6)
        a.glyph(0, [1, 2, 3, 4, 5, 6, 7, 8])
        a.write(0, 0, "first")
        b = HostLCD(i2c_addr=0x27)
        if getattr(b, "glyphs", {}) not in ({}, None):
            bad.append({"problem": "a fresh display already has glyphs", "glyphs": repr(getattr(b, "glyphs", None))[:120]})
        if b.buffer[0].strip():
            bad.append({"problem": "a fresh display already has text", "row": b.buffer[0]})
        b.glyph(0, [31, 30, 29, 28, 27, 26, 25, 24])
        b.glyph(3, [0, 0, 0, 0, 0, 0, 0, 1])
        b.line(1, "second")
        if list(a.glyphs.get(0, [])) != [1, 2, 3, 4, 5, 6, 7, 8] or 3 in a.glyphs:
            bad.append({"problem": "uploading a glyph to one display changed another display's glyph table", "first_display_glyphs": repr(a.glyphs)[:160]})
        if list(b.glyphs.get(0, [])) != [31, 30, 29, 28, 27, 26, 25, 24]:
            bad.append({"problem": "the display does not store the eight rows it was given", "glyphs": repr(b.glyphs)[:160]})
        if a.buffer[1].strip() or not a.buffer[0].startswith("first"):
            bad.append({"problem": "writing to one display changed another display's buffer", "rows": a.buffer})
        c = HostLCD(rs=1, en=2, d4=3, d5=4, d6=5, d7=6, cols=20, rows=4)
        if len(c.buffer) != 4 or any(len(r) != 20 for r in c.buffer) or getattr(c, "glyphs", {}) not in ({}, None):
            bad.append({"problem": "a third display is not fresh", "rows": c.buffer, "glyphs": repr(getattr(c, "glyphs", None))[:80]})
    except Exception as ex:
        bad.append({"problem": f"{type(ex).__name__}: {ex}"})
    out.append({"name": "C17/host/display-objects-are-independent", "status": "discharged" if not bad else "sat", "backend": "bounded-native", "bounded": True,
                "where": "three host LCD objects: glyph tables, buffers and geometry of one are not affected by operations on another", "time": round(_time.time() - t0, 3),
                "replay": {"bad": bad[:3]}, "replay_confirmed": bool(bad)})
    out += backlight_and_glyph_obligations(HostLCD)
    from progs.concat import concat_obligations
    out += concat_obligations("C17", {"LCD": ("d = LCD(rs=22, en=23, d4=24, d5=25, d6=26, d7=27)",
                                              ["d.write(0, 0, 'hi')", "d.line(1, 'x', align='right')", "d.message('a', 'b')", "d.clear()", "d.progress(0, 50)", "d.backlight(True)"])})
    from progs.concat import scope_obligations
    out += scope_obligations("C17", {"LCD": ("d = LCD(rs=22, en=23, d4=24, d5=25, d6=26, d7=27)",
                                              ["d.write(0, 0, 'hi')", "d.line(1, 'x', align='right')", "d.message('a', 'b')", "d.clear()", "d.progress(0, 50)", "d.backlight(True)"])})
    PROPERTY.setdefault("bounded", [])
    PROPERTY["bounded"] = [b for b in PROPERTY["bounded"] if b.get("check") != "device differential"] + [
        {"check": "device differential", "bound": f"{len(out)} scripts (write/line/message/clear/progress x parallel, I2C, 20x4), literal arguments incl. mixed-case alignments"}]
    return out


def extra_evidence():
    return {"device_snippet_sha256": _B.get("sha"), "device_functions": _B.get("functions"), "bounded": PROPERTY.get("bounded", [])}
