// Host-executable mock of the Arduino core for differential replay of emitted sketches (g++ -std=gnu++17).
// Every observable call prints one event line on stdout:
//   S:<text>   Serial.print/println line      D:<ms>  delay       W:<pin>:<value> digital/analog write
//   M:<pin>:<mode> pinMode                     T:<pin>:<hz> tone   N:<pin> noTone   == loop <k>  pass markers
// Inputs are scripted through environment variables (FWSIM_DIGITAL, FWSIM_ANALOG, FWSIM_PULSE: comma lists, last repeats).
#pragma once
#include <cstdio>
#include <cstdlib>
#include <cstring>
#include <cmath>
#include <string>
#include <vector>
#include <sstream>
typedef unsigned char uint8_t;
typedef unsigned char byte;
typedef bool boolean;
#define HIGH 0x1
#define LOW 0x0
#define INPUT 0x0
#define OUTPUT 0x1
#define INPUT_PULLUP 0x2
#define A0 14
#define A1 15
#define A2 16
#define A3 17
#define A4 18
#define A5 19
#define A6 20
#define A7 21
#define A8 22
#define A9 23
#define A10 24
#define A11 25
#define A12 26
#define A13 27
#define A14 28
#define A15 29
#define F(s) (s)
// live heap blocks of the sketch (array new / delete, as the list helpers use them): reported as H:<live> at every pass
namespace fwsim { inline long &live_blocks() { static long n = 0; return n; } }
inline void *operator new[](size_t n) { void *p = malloc(n ? n : 1); if (p) fwsim::live_blocks()++; return p; }
inline void operator delete[](void *p) noexcept { if (p) { fwsim::live_blocks()--; free(p); } }
inline void operator delete[](void *p, size_t) noexcept { if (p) { fwsim::live_blocks()--; free(p); } }
namespace fwsim {
inline unsigned long &clock_ms() { static unsigned long t = 1; return t; }
inline std::vector<long> parse(const char *name) {
  std::vector<long> v; const char *e = getenv(name); if (!e) return v;
  std::stringstream ss(e); std::string item; while (std::getline(ss, item, ',')) if (!item.empty()) v.push_back(atol(item.c_str()));
  return v;
}
inline long next(const char *name, size_t &idx, long dflt) {
  static std::vector<long> d = parse("FWSIM_DIGITAL"), a = parse("FWSIM_ANALOG"), p = parse("FWSIM_PULSE");
  std::vector<long> &v = (strcmp(name, "FWSIM_DIGITAL") == 0) ? d : (strcmp(name, "FWSIM_ANALOG") == 0) ? a : p;
  if (v.empty()) return dflt; long r = v[idx < v.size() ? idx : v.size() - 1]; idx++; return r;
}
}
inline void pinMode(int pin, int mode) { printf("M:%d:%d\n", pin, mode); }
inline void digitalWrite(int pin, int v) { printf("W:%d:%d\n", pin, v ? 255 : 0); }
inline void analogWrite(int pin, int v) { printf("W:%d:%d\n", pin, v); }
inline int digitalRead(int pin) { static size_t i = 0; printf("R:%d\n", pin); return (int)fwsim::next("FWSIM_DIGITAL", i, 0); }
inline int analogRead(int pin) { static size_t i = 0; printf("AR:%d\n", pin); return (int)fwsim::next("FWSIM_ANALOG", i, 0); }
inline unsigned long millis() { return fwsim::clock_ms(); }
inline unsigned long micros() { return fwsim::clock_ms() * 1000UL; }
inline void delay(unsigned long ms) { printf("D:%lu\n", ms); fwsim::clock_ms() += ms; }
inline void delayMicroseconds(unsigned int) {}
inline unsigned long pulseIn(int pin, int, unsigned long = 1000000UL) { static size_t i = 0; printf("PI:%d\n", pin); return (unsigned long)fwsim::next("FWSIM_PULSE", i, 0); }
inline void tone(int pin, unsigned int f, unsigned long = 0) { printf("T:%d:%u\n", pin, f); }
inline void noTone(int pin) { printf("N:%d\n", pin); }
#ifndef min
#define min(a,b) ((a)<(b)?(a):(b))
#define max(a,b) ((a)>(b)?(a):(b))
#endif
// Arduino.h defines abs/round as macros too (after <cmath>/<cstdlib>, as the AVR core does)
#undef abs
#define abs(x) ((x)>0?(x):-(x))
#undef round
#define round(x)     ((x)>=0?(long)((x)+0.5):(long)((x)-0.5))
#define constrain(amt,low,high) ((amt)<(low)?(low):((amt)>(high)?(high):(amt)))
class String {
 public:
  std::string s;
  String(const char *c = "") : s(c ? c : "") {}
  String(const std::string &x) : s(x) {}
  String(const String &o) : s(o.s) {}
  explicit String(char c) : s(1, c) {}
  explicit String(int v, unsigned char = 10) : s(std::to_string(v)) {}
  explicit String(unsigned int v, unsigned char = 10) : s(std::to_string(v)) {}
  explicit String(long v, unsigned char = 10) : s(std::to_string(v)) {}
  explicit String(unsigned long v, unsigned char = 10) : s(std::to_string(v)) {}
  explicit String(bool v) : s(v ? "1" : "0") {}
  explicit String(float v, unsigned char d = 2) { char b[64]; snprintf(b, sizeof b, "%.*f", d, (double)v); s = b; }
  explicit String(double v, unsigned char d = 2) { char b[64]; snprintf(b, sizeof b, "%.*f", d, v); s = b; }
  String &operator=(const String &o) { s = o.s; return *this; }
  String &operator=(const char *c) { s = c; return *this; }
  unsigned int length() const { return (unsigned int)s.size(); }
  String &operator+=(const String &o) { s += o.s; return *this; }
  String &operator+=(const char *c) { s += c; return *this; }
  String &operator+=(char c) { s += c; return *this; }
  friend String operator+(const String &a, const String &b) { return String(a.s + b.s); }
  friend String operator+(const String &a, const char *b) { return String(a.s + b); }
  friend String operator+(const char *a, const String &b) { return String(std::string(a) + b.s); }
  friend String operator+(const String &a, char b) { return String(a.s + std::string(1, b)); }
  bool operator==(const String &o) const { return s == o.s; }
  bool operator==(const char *c) const { return s == c; }
  bool operator!=(const String &o) const { return s != o.s; }
  char charAt(unsigned int i) const { return i < s.size() ? s[i] : 0; }
  char operator[](unsigned int i) const { return i < s.size() ? s[i] : 0; }
  char &operator[](unsigned int i) { return s[i]; }
  String substring(unsigned int b) const { return substring(b, (unsigned int)s.size()); }
  String substring(unsigned int b, unsigned int e) const { if (b > e) { unsigned int t = b; b = e; e = t; } if (e > s.size()) e = s.size(); if (b >= s.size()) return String(""); return String(s.substr(b, e - b)); }
  int indexOf(char c) const { size_t p = s.find(c); return p == std::string::npos ? -1 : (int)p; }
  long toInt() const { return atol(s.c_str()); }
  float toFloat() const { return (float)atof(s.c_str()); }
  const char *c_str() const { return s.c_str(); }
  void reserve(unsigned int) {}
};
class Print {
 public:
  std::string line;
  void emit(const std::string &x, bool nl) { line += x; if (nl) { printf("S:%s\n", line.c_str()); line.clear(); } }
  size_t print(const String &x) { emit(x.s, false); return x.s.size(); }
  size_t print(const char *x) { emit(x, false); return strlen(x); }
  size_t print(char c) { emit(std::string(1, c), false); return 1; }
  size_t print(int v, int = 10) { emit(std::to_string(v), false); return 1; }
  size_t print(unsigned int v, int = 10) { emit(std::to_string(v), false); return 1; }
  size_t print(long v, int = 10) { emit(std::to_string(v), false); return 1; }
  size_t print(unsigned long v, int = 10) { emit(std::to_string(v), false); return 1; }
  size_t print(double v, int d = 2) { emit(String(v, (unsigned char)d).s, false); return 1; }
  size_t println(const String &x) { emit(x.s, true); return 1; }
  size_t println(const char *x) { emit(x, true); return 1; }
  size_t println(char c) { emit(std::string(1, c), true); return 1; }
  size_t println(int v, int = 10) { emit(std::to_string(v), true); return 1; }
  size_t println(unsigned int v, int = 10) { emit(std::to_string(v), true); return 1; }
  size_t println(long v, int = 10) { emit(std::to_string(v), true); return 1; }
  size_t println(unsigned long v, int = 10) { emit(std::to_string(v), true); return 1; }
  size_t println(double v, int d = 2) { emit(String(v, (unsigned char)d).s, true); return 1; }
  size_t println(bool v) { emit(v ? "1" : "0", true); return 1; }
  size_t println() { emit("", true); return 1; }
};
class HardwareSerial : public Print {
 public:
  void begin(unsigned long b) { printf("SB:%lu\n", b); }
  int available() { return 0; }
  int read() { return -1; }
  String readStringUntil(char) { return String(""); }
  operator bool() { return true; }
};
static HardwareSerial Serial;
void setup();
void loop();
#ifndef FWSIM_NO_MAIN
int main(int argc, char **argv) {
  int passes = argc > 1 ? atoi(argv[1]) : 3;
  printf("== setup\n"); setup();
  for (int k = 0; k < passes; ++k) { printf("== loop %d\n", k); loop(); printf("H:%ld\n", fwsim::live_blocks()); }
  return 0;
}
#endif
