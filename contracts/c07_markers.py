"""Marker scripts of C07: every statement line carries a unique marker (mon.write('m<k>') / sleep(<odd number>)); all of them must be in
the firmware text whatever stands in front of them in the block (a guard clause whose arms all leave the block, an else arm that
produces nothing, a docstring whose closing quotes stand on their own line, ...)."""
_MH = "from Reduino.Actuators import Led\nfrom Reduino.Communication import SerialMonitor\nfrom Reduino.Utils import sleep\nled = Led(13)\nmon = SerialMonitor(9600)\n"
Q3, A3 = '"' * 3, "'" * 3
MARKER_SCRIPTS = {
    "guard-continue-in-main-loop": _MH + "ticks = 0\nwhile True:\n    ticks += 1\n    if ticks < 3:\n        continue\n    mon.write('m1')\n    sleep(251)\n    mon.write('m2')\n",
    "guard-continue-with-empty-else": _MH + "ticks = 0\nwhile True:\n    ticks += 1\n    if ticks < 3:\n        continue\n    else:\n        pass\n    mon.write('m1')\n    sleep(253)\n",
    "guard-returns-in-helper": _MH + "def level(v):\n    if v > 10:\n        return 2\n    elif v > 5:\n        return 1\n    mon.write('m1')\n    return 0\nx = level(3)\nmon.write('m2')\n",
    "guard-break-in-for": _MH + "limit = 4\nfor i in range(10):\n    if i > limit:\n        break\n    mon.write('m1')\n    sleep(101)\nmon.write('m2')\n",
    "guard-continue-in-while": _MH + "k = 0\nwhile k < 5:\n    k = k + 1\n    if k == 2:\n        continue\n    mon.write('m1')\nmon.write('m2')\n",
    "guard-with-both-arms-leaving": _MH + "def pick(v):\n    if v > 1:\n        return 1\n    else:\n        return 2\ny = pick(3)\nmon.write('m1')\nfor i in range(3):\n    if i == 1:\n        continue\n    else:\n        mon.write('m2')\n    mon.write('m3')\n",
    "nested-guards": _MH + "k = 0\nwhile True:\n    k += 1\n    if k > 2:\n        if k > 4:\n            continue\n        mon.write('m1')\n    mon.write('m2')\n    sleep(7)\n",
    "module-docstring-closing-on-own-line": Q3 + "Blink.\n\nTwo paragraphs.\n" + Q3 + "\n" + _MH + "mon.write('m1')\nwhile True:\n    mon.write('m2')\n    sleep(9)\n",
    "helper-docstring-closing-on-own-line": _MH + "def signal(n):\n    " + Q3 + "Beep.\n\n    more\n    " + Q3 + "\n    mon.write('m1')\n    return n + 1\nc = signal(1)\nmon.write('m2')\n",
    "helper-docstring-single-quotes": _MH + "def signal(n):\n    " + A3 + "Beep.\n    more\n    " + A3 + "\n    mon.write('m1')\n    return n + 1\nc = signal(1)\nmon.write('m2')\n",
    "main-loop-docstring": _MH + "while True:\n    " + Q3 + "each pass:\n    report\n    " + Q3 + "\n    mon.write('m1')\n    sleep(11)\n",
    "branch-and-loop-docstrings": _MH + "c = 1\nif c > 0:\n    " + Q3 + "taken\n    arm\n    " + Q3 + "\n    mon.write('m1')\nfor i in range(2):\n    " + Q3 + "body\n    text\n    " + Q3 + "\n    mon.write('m2')\nmon.write('m3')\n",
    "one-line-docstrings": _MH + "def f(n):\n    " + Q3 + "One line." + Q3 + "\n    mon.write('m1')\n    return n\nz = f(1)\nwhile True:\n    " + Q3 + "pass text" + Q3 + "\n    mon.write('m2')\n    sleep(13)\n",
    "two-docstrings-in-a-row": Q3 + "first\ntext\n" + Q3 + "\n" + _MH + Q3 + "second\ntext\n" + Q3 + "\nmon.write('m1')\n" + Q3 + "third\n" + Q3 + "\nmon.write('m2')\n",
    "sleep-of-zero-is-a-statement": _MH + "mon.write('m1')\nsleep(0)\nk = 0\nwhile k < 3:\n    k = k + 1\n    sleep(0)\nwhile True:\n    mon.write('m2')\n    sleep(0)\n",
    "docstring-closing-on-last-text-line": _MH + "def g(n):\n    " + Q3 + "Beep.\n    more" + Q3 + "\n    mon.write('m1')\n    return n\nq = g(2)\nmon.write('m2')\n",
}
