"""Context-independence of emission (finite back end on the real parser + emitter): the C++ emitted for a device command does
not depend on which commands precede it - body(A; B; C) == body(A) + body(B) + body(C) - so that the per-command fragment
contracts compose over command sequences.  `body` is what a statement adds to setup() / loop() / globals."""
import itertools
import re


def sections(cpp):
    g = cpp[:cpp.index("void setup()")]
    s = cpp[cpp.index("void setup()"):cpp.index("void loop()")]
    l = cpp[cpp.index("void loop()"):]
    return g.splitlines(), s.splitlines(), l.splitlines()


def added(base, full):
    """lines of `full` not accounted for by `base` (multiset difference, order of `full` kept)"""
    from collections import Counter
    c = Counter(base)
    out = []
    for line in full:
        if c[line] > 0:
            c[line] -= 1
        else:
            out.append(line)
    return out


def check(P, E, prelude, decl, statements, compounds, where="setup", length=3):
    """-> list of failures.  statements: simple command lines; compounds: templates with {body} for a nested command"""
    def emit(lines):
        if where == "setup":
            src = prelude + decl + "\n" + "\n".join(lines) + "\n"
        else:
            src = prelude + decl + "\nwhile True:\n" + "\n".join("    " + l for l in "\n".join(lines).split("\n")) + "\n    sleep(5)\n"
        try:
            return E.emit(P.parse(src))
        except Exception as ex:
            return None
    base = emit(["c = 1"])
    if base is None:
        return [{"problem": "base script does not transpile"}]
    bg, bs, bl = sections(base)

    def body(lines):
        cpp = emit(["c = 1"] + lines)
        if cpp is None:
            return None
        g, s, l = sections(cpp)
        return added(bg, g), added(bs, s), added(bl, l)
    units = list(statements)
    for tmpl in compounds:
        for st in statements[:3]:
            units.append(tmpl.format(body=st))
    single = {u: body([u]) for u in units}
    fails = []
    n = 0
    for seq in itertools.product(units, repeat=length):
        if any(single[u] is None for u in seq):
            continue
        # helper definitions with the same name cannot be repeated
        if len({u for u in seq if u.startswith("def ")}) != len([u for u in seq if u.startswith("def ")]):
            continue
        n += 1
        got = body(list(seq))
        if got is None:
            fails.append({"sequence": list(seq), "problem": "the sequence is rejected although each statement alone is accepted"})
            continue
        for k, name in enumerate(("globals", "setup", "loop")):
            want = sum((single[u][k] for u in seq), [])
            # globals are de-duplicated declarations: compare as sets; code sections must be the exact concatenation
            ok = set(got[k]) == set(want) if name == "globals" else got[k] == want
            if not ok:
                fails.append({"sequence": list(seq), "section": name, "emitted": got[k][:14], "concatenation_of_the_parts": want[:14]})
                break
        if len(fails) >= 6:
            break
    return fails, n

CONCAT_PRE = "from Reduino.Actuators import Led, RGBLed, Servo, DCMotor, Buzzer\nfrom Reduino.Displays import LCD\nfrom Reduino.Utils import sleep\n"
CONCAT_COMPOUNDS = ["if c > 0:\n    {body}", "for i in range(2):\n    {body}"]


def concat_obligations(prefix, sets):
    """the emitted code of a command does not depend on the commands before it (so the per-command contracts compose over sequences)"""
    import time
    from contracts.c08 import real
    from progs.concat import check
    P, E = real("Reduino.transpile.parser"), real("Reduino.transpile.emitter")
    out = []
    for name, (decl, sts) in sets.items():
        for where in ("setup", "loop"):
            t0 = time.time()
            fails, n = check(P, E, CONCAT_PRE, decl, sts, CONCAT_COMPOUNDS, where, length=3 if len(sts) <= 5 else 2)
            out.append({"name": f"{prefix}/compose/{name}/{where}", "status": "discharged" if not fails else "sat", "backend": "enum",
                        "where": f"{name} commands in {where}(): for all {n} sequences over {len(sts)} commands (+ the same inside if / for), the emitted code is the "
                                 "concatenation of what each command emits alone", "time": round(time.time() - t0, 3),
                        "replay": {"failures": fails[:3]}, "replay_confirmed": bool(fails)})
    return out


def _behaviour_differs(cpp_setup, cpp_scope, scope):
    """None if the two sketches produce the same device events for the command (setup variant vs. the variant in another scope)"""
    from fwsim.run import run_sketch
    a = run_sketch(cpp_setup, passes=0)
    b = run_sketch(cpp_scope, passes=1 if scope == "main loop" else 0)
    if not a.get("compiled") or not b.get("compiled"):
        return {"compile_error": (a.get("errors") or b.get("errors") or "")[-200:]}
    ev = lambda r: [e for e in r["events"] if not e.startswith(("== ", "H:")) and e != "D:5"]
    ea, eb = ev(a), ev(b)
    if ea == eb:
        return None
    k = next((i for i, (x, y) in enumerate(zip(ea, eb)) if x != y), min(len(ea), len(eb)))
    return {"first_difference_at": k, "in_setup": ea[max(0, k - 2):k + 3], "in_scope": eb[max(0, k - 2):k + 3]}


def scope_obligations(prefix, sets):
    """the code emitted for a command inside a helper function body, a branch or a loop is the code emitted for it in setup() (modulo
    indentation): the fragment contracts, harvested in setup()/loop(), then hold in every scope"""
    import time
    from contracts.c08 import real
    P, E = real("Reduino.transpile.parser"), real("Reduino.transpile.emitter")
    out = []
    OBS = {"Buzzer": ["bz.get_frequency()", "bz.get_last_frequency()", "bz.get_state()"], "Led": ["d.get_state()", "d.get_brightness()"],
           "Servo": ["d.read()", "d.read_us()"], "DCMotor": ["d.get_speed()", "d.get_applied_speed()", "d.is_inverted()", "d.get_mode()"]}
    MON = "from Reduino.Communication import SerialMonitor\nmon = SerialMonitor(9600)\n"
    for name, (decl, sts) in sets.items():
        t0 = time.time()
        fails, n = [], 0
        obs = "".join(f"mon.write({g})\n" for g in OBS.get(name, []))
        base = E.emit(P.parse(CONCAT_PRE + decl + "\nc = 1\n"))
        _, bs, _ = sections(base)
        for st in sts:
            try:
                ref = E.emit(P.parse(CONCAT_PRE + decl + "\nc = 1\n" + st + "\n"))
            except Exception:
                continue
            _, s1, _ = sections(ref)
            want = [l.strip() for l in added(bs, s1)]
            for scope, tmpl, opener in (("helper function", "def act():\n    {body}\nact()\n", "void act() {"), ("main loop", "while True:\n    {body}\n    sleep(5)\n", "void loop() {"),
                                        ("branch in a helper", "def act():\n    if c > 0:\n        {body}\nact()\n", "void act() {")):
                n += 1
                try:
                    cpp = E.emit(P.parse(CONCAT_PRE + decl + "\nc = 1\n" + tmpl.format(body=st)))
                except Exception as ex:
                    fails.append({"command": st, "scope": scope, "problem": f"rejected in this scope: {type(ex).__name__}: {ex}"})
                    continue
                if opener not in cpp:
                    fails.append({"command": st, "scope": scope, "problem": f"no `{opener}` in the sketch"})
                    continue
                body = cpp[cpp.index(opener) + len(opener):]
                depth, end = 1, 0
                for i, ch in enumerate(body):
                    depth += ch == "{"
                    depth -= ch == "}"
                    if depth == 0:
                        end = i
                        break
                got = [l.strip() for l in body[:end].splitlines() if l.strip()]
                got = [l for l in got if l not in ("delay(5);", "if ((c > 0)) {", "}") or l in want]
                # the command's lines must appear, in order and contiguously, in the scope's body
                joined, w = "\n".join(got), "\n".join(want)
                if w and w not in joined:
                    # the text differs: it is a violation only if the behaviour differs too (same command, same prior state, on the firmware mock)
                    # (the device's state getters are printed after the command in both variants, so that shadow state is compared too)
                    try:
                        ref_o = E.emit(P.parse(CONCAT_PRE + MON + decl + "\nc = 1\n" + st + "\n" + obs))
                        ind = "    " if scope == "main loop" else ""
                        tail = "".join(ind + l + "\n" for l in obs.splitlines())
                        src_o = CONCAT_PRE + MON + decl + "\nc = 1\n" + tmpl.format(body=st)
                        src_o = src_o.replace("    sleep(5)\n", tail + "    sleep(5)\n") if scope == "main loop" else src_o + tail
                        cpp_o = E.emit(P.parse(src_o))
                        beh = _behaviour_differs(ref_o, cpp_o, scope)
                    except Exception as ex:
                        beh = {"error": f"{type(ex).__name__}: {ex}"}
                    if beh is not None:
                        k = next((i for i, l in enumerate(want) if l not in got), 0)
                        fails.append({"command": st, "scope": scope, "first_line_missing_or_changed": want[k] if want else None, "emitted_in_scope": got[:12],
                                      "behaviour": beh})
            if len(fails) >= 6:
                break
        out.append({"name": f"{prefix}/scope/{name}", "status": "discharged" if not fails else "sat", "backend": "enum",
                    "where": f"{name}: for {len(sts)} commands x 3 scopes (helper body, main loop, branch in a helper) the emitted code is the code emitted in setup()",
                    "time": round(time.time() - t0, 3), "replay": {"failures": fails[:3]}, "replay_confirmed": bool(fails)})
    return out
